// gen builds the go-build overlay that every check compiles /repo with.
//
//	gen -repo /repo -verif /verif -out /verif/build/ovl [-timepkgs a,b,c] [-profile name]
//
// It reads the .go files of the listed jiva packages from /repo's *current
// working tree*, rewrites the import of "time" to the virtual shim package
// github.com/openebs/jiva/verifshim/vtime (byte-level edit of the import
// literal, so line numbers are unchanged), and writes overlay.json mapping
//   - the rewritten files onto their /repo paths,
//   - /verif/shim/vtime/*.go onto /repo/verifshim/vtime/ (a virtual package),
//   - /verif/shim/inject/default.go onto /repo/error-inject/default.go,
//   - /verif/shim/<pkg>/zz_verif.go onto /repo/<pkgdir>/zz_verif.go (accessors).
//
// /repo itself is never written.
package main

import (
	"encoding/json"
	"flag"
	"fmt"
	"go/ast"
	"go/parser"
	"go/token"
	"os"
	"path/filepath"
	"sort"
	"strings"
)

var accessorDirs = map[string]string{ // shim dir -> repo package dir
	"replica":        "replica",
	"controller":     "controller",
	"remote":         "backend/remote",
	"rpc":            "rpc",
	"replicarest":    "replica/rest",
	"controllerrest": "controller/rest",
	"sync":           "sync",
	"util":           "util",
	"app":            "app",
}

func die(f string, a ...interface{}) {
	fmt.Fprintf(os.Stderr, "gen: "+f+"\n", a...)
	os.Exit(2)
}

func main() {
	repo := flag.String("repo", "/repo", "")
	verif := flag.String("verif", "/verif", "")
	out := flag.String("out", "/verif/build/ovl", "")
	timepkgs := flag.String("timepkgs", "replica,controller,replica/client,backend/remote,sync,controller/client,app,replica/rest,controller/rest,sync/agent,rpc:sleeponly", "")
	flag.Parse()

	replace := map[string]string{}
	if err := os.MkdirAll(*out, 0755); err != nil {
		die("%v", err)
	}
	nrew := 0
	for _, pkg := range strings.Split(*timepkgs, ",") {
		pkg = strings.TrimSpace(pkg)
		if pkg == "" {
			continue
		}
		shim := "vtime"
		if strings.HasSuffix(pkg, ":sleeponly") {
			// only Sleep is scaled (package rpc: its deadlines must stay real)
			pkg, shim = strings.TrimSuffix(pkg, ":sleeponly"), "vtimesl"
		}
		dir := filepath.Join(*repo, pkg)
		ents, err := os.ReadDir(dir)
		if err != nil {
			die("package %s: %v", pkg, err)
		}
		for _, e := range ents {
			n := e.Name()
			if e.IsDir() || !strings.HasSuffix(n, ".go") || strings.HasSuffix(n, "_test.go") {
				continue
			}
			src, err := os.ReadFile(filepath.Join(dir, n))
			if err != nil {
				die("%v", err)
			}
			fset := token.NewFileSet()
			f, err := parser.ParseFile(fset, n, src, parser.ImportsOnly)
			if err != nil {
				die("parse %s/%s: %v", pkg, n, err)
			}
			for _, im := range f.Imports {
				if im.Path.Value != `"time"` {
					continue
				}
				if im.Name != nil {
					die("%s/%s imports time under a name; not supported", pkg, n)
				}
				off := fset.Position(im.Path.Pos()).Offset
				end := fset.Position(im.Path.End()).Offset
				ns := string(src[:off]) + `time "github.com/openebs/jiva/verifshim/` + shim + `"` + string(src[end:])
				dst := filepath.Join(*out, pkg, n)
				os.MkdirAll(filepath.Dir(dst), 0755)
				if err := writeIfChanged(dst, []byte(ns)); err != nil {
					die("%v", err)
				}
				replace[filepath.Join(dir, n)] = dst
				nrew++
			}
		}
	}
	nosync := true
	// virtual shim packages
	for _, sp := range []string{"vtime", "vtimesl"} {
		ents, err := os.ReadDir(filepath.Join(*verif, "shim", sp))
		if err != nil {
			die("%v", err)
		}
		for _, e := range ents {
			if strings.HasSuffix(e.Name(), ".go") {
				replace[filepath.Join(*repo, "verifshim", sp, e.Name())] = filepath.Join(*verif, "shim", sp, e.Name())
			}
		}
	}
	// replaced inject file
	if _, err := os.Stat(filepath.Join(*repo, "error-inject", "default.go")); err != nil {
		die("error-inject/default.go missing: %v", err)
	}
	replace[filepath.Join(*repo, "error-inject", "default.go")] = filepath.Join(*verif, "shim", "inject", "default.go")
	// accessor files
	for sd, pd := range accessorDirs {
		ents, err := os.ReadDir(filepath.Join(*verif, "shim", sd))
		if err != nil {
			continue
		}
		for _, e := range ents {
			if strings.HasSuffix(e.Name(), ".go") {
				replace[filepath.Join(*repo, pd, e.Name())] = filepath.Join(*verif, "shim", sd, e.Name())
			}
		}
	}
	if nosync {
		applyPerfPatches(*repo, *out, replace)
	}
	extractCloneBracket(*repo, *out, replace)
	extractRemoteChans(*repo, *out, replace)
	patchWaitAction(*repo, *out, replace)
	keys := make([]string, 0, len(replace))
	for k := range replace {
		keys = append(keys, k)
	}
	sort.Strings(keys)
	b, _ := json.MarshalIndent(map[string]interface{}{"Replace": replace}, "", " ")
	if err := writeIfChanged(filepath.Join(*out, "overlay.json"), b); err != nil {
		die("%v", err)
	}
	fmt.Fprintf(os.Stderr, "gen: %d files rewritten (time->vtime), %d overlay entries\n", nrew, len(replace))
}

// perfPatch is a performance-only edit (it removes fsync/O_SYNC for engines that do not study durability; the harness
// must opt in at run time by setting util.VerifNoSync).  If the text is not found exactly once the patch is skipped:
// the build still works, only slower - so an edit of these very lines in /repo can never break a check.
type perfPatch struct{ file, old, new string }

var perfPatches = []perfPatch{
	{"util/util.go", "func SyncDir(dir string) error {\n", "func SyncDir(dir string) error {\n\tif VerifNoSync {\n\t\treturn nil\n\t}\n"},
	{"replica/replica.go", "os.O_RDWR|os.O_CREATE|os.O_TRUNC|os.O_SYNC, 0666)", "os.O_RDWR|os.O_CREATE|os.O_TRUNC|verifOSync(), 0666)"},
}

func applyPerfPatches(repo, out string, replace map[string]string) {
	for _, pp := range perfPatches {
		target := filepath.Join(repo, pp.file)
		srcPath := target
		if r, ok := replace[target]; ok {
			srcPath = r
		}
		src, err := os.ReadFile(srcPath)
		if err != nil {
			fmt.Fprintf(os.Stderr, "gen: perf patch %s skipped: %v\n", pp.file, err)
			continue
		}
		if strings.Count(string(src), pp.old) != 1 {
			fmt.Fprintf(os.Stderr, "gen: perf patch %s skipped (text not found exactly once)\n", pp.file)
			continue
		}
		dst := filepath.Join(out, pp.file)
		os.MkdirAll(filepath.Dir(dst), 0755)
		if err := writeIfChanged(dst, []byte(strings.Replace(string(src), pp.old, pp.new, 1))); err != nil {
			die("%v", err)
		}
		replace[target] = dst
	}
}

// extractCloneBracket copies, verbatim, the statement of app.startReplica that brackets a clone with its status
// (inProgress -> CloneReplica -> completed / error, or NA) into a generated function app.VerifCloneBracket, so that the
// clone scenario of engine E-F runs the repository's CURRENT text of that bracket instead of a re-statement.
// startReplica itself is an unexported CLI action that listens on sockets and cannot be called from a harness.
// If the statement cannot be found the generated function reports that (only the C19 check is affected).
func extractCloneBracket(repo, out string, replace map[string]string) {
	target := filepath.Join(repo, "app", "replica.go")
	srcPath := target
	if r, ok := replace[target]; ok {
		srcPath = r
	}
	stub := func(why string) string {
		return "//go:build verif\n\npackage app\n\nimport (\n\t\"fmt\"\n\n\t\"github.com/openebs/jiva/replica\"\n)\n\n// VerifCloneBracket: extraction failed (" + why + ")\nfunc VerifCloneBracket(s *replica.Server, address, cloneIP, snapName, replicaType string) (err error) {\n\treturn fmt.Errorf(\"verif: the clone status bracket of app.startReplica could not be extracted: " + why + "\")\n}\n"
	}
	text := ""
	src, err := os.ReadFile(srcPath)
	if err == nil {
		fset := token.NewFileSet()
		f, perr := parser.ParseFile(fset, "replica.go", src, 0)
		if perr == nil {
			ast.Inspect(f, func(n ast.Node) bool {
				fd, ok := n.(*ast.FuncDecl)
				if !ok || fd.Name.Name != "startReplica" || fd.Body == nil {
					return true
				}
				for _, st := range fd.Body.List {
					ifs, ok := st.(*ast.IfStmt)
					if !ok {
						continue
					}
					cond := string(src[fset.Position(ifs.Cond.Pos()).Offset:fset.Position(ifs.Cond.End()).Offset])
					if strings.Contains(cond, "replicaType") && strings.Contains(cond, "\"clone\"") {
						text = string(src[fset.Position(ifs.Pos()).Offset:fset.Position(ifs.End()).Offset])
					}
				}
				return false
			})
		}
	}
	code := stub("statement `if replicaType == \\\"clone\\\" ...` not found in startReplica")
	if text != "" {
		code = "//go:build verif\n\n// Code generated by /verif/tools/gen from app/replica.go startReplica; DO NOT EDIT.\npackage app\n\nimport (\n\t\"github.com/openebs/jiva/replica\"\n\t\"github.com/sirupsen/logrus\"\n)\n\nvar _ = logrus.Infof\n\n// VerifCloneBracket is the verbatim clone-status bracket of startReplica.\nfunc VerifCloneBracket(s *replica.Server, address, cloneIP, snapName, replicaType string) (err error) {\n\t" + text + "\n\treturn nil\n}\n"
	}
	dst := filepath.Join(out, "app", "zz_verif_clone.go")
	os.MkdirAll(filepath.Dir(dst), 0755)
	if err := writeIfChanged(dst, []byte(code)); err != nil {
		die("%v", err)
	}
	replace[filepath.Join(repo, "app", "zz_verif_clone.go")] = dst
}

// extractRemoteChans copies the two channel-creation expressions of backend/remote Factory.Create (closeChan,
// monitorChan: their capacities decide whether a detaching controller can block) into a generated function that the
// stand-in constructor remote.NewForVerif uses, so that the harness backends of E-B / E-D get the repository's CURRENT
// capacities instead of a re-statement.  If the literal cannot be found the historical capacities are used and the
// generated file says so.
func extractRemoteChans(repo, out string, replace map[string]string) {
	target := filepath.Join(repo, "backend", "remote", "remote.go")
	srcPath := target
	if r, ok := replace[target]; ok {
		srcPath = r
	}
	closeE, monE := "", ""
	if src, err := os.ReadFile(srcPath); err == nil {
		fset := token.NewFileSet()
		if f, perr := parser.ParseFile(fset, "remote.go", src, 0); perr == nil {
			ast.Inspect(f, func(n ast.Node) bool {
				fd, ok := n.(*ast.FuncDecl)
				if !ok || fd.Name.Name != "Create" || fd.Recv == nil || fd.Body == nil {
					return true
				}
				ast.Inspect(fd.Body, func(m ast.Node) bool {
					cl, ok := m.(*ast.CompositeLit)
					if !ok {
						return true
					}
					if id, ok := cl.Type.(*ast.Ident); !ok || id.Name != "Remote" {
						return true
					}
					for _, el := range cl.Elts {
						kv, ok := el.(*ast.KeyValueExpr)
						if !ok {
							continue
						}
						k, _ := kv.Key.(*ast.Ident)
						if k == nil {
							continue
						}
						txt := string(src[fset.Position(kv.Value.Pos()).Offset:fset.Position(kv.Value.End()).Offset])
						switch k.Name {
						case "closeChan":
							closeE = txt
						case "monitorChan":
							monE = txt
						}
					}
					return true
				})
				return false
			})
		}
	}
	note := "// Code generated by /verif/tools/gen from backend/remote/remote.go Factory.Create; DO NOT EDIT."
	if closeE == "" || monE == "" || strings.Contains(closeE+monE, "r.") {
		note = "// tools/gen: the channel expressions of Factory.Create were not found as fields of a Remote literal; historical capacities used."
		closeE, monE = "make(chan struct{}, 5)", "make(types.MonitorChannel, 5)"
	}
	code := "//go:build verif\n\n" + note + "\npackage remote\n\nimport \"github.com/openebs/jiva/types\"\n\n// verifChans creates the close and monitor channels the way Factory.Create does.\nfunc verifChans() (chan struct{}, types.MonitorChannel) {\n\treturn " + closeE + ", " + monE + "\n}\n"
	dst := filepath.Join(out, "backend", "remote", "zz_verif_chans.go")
	os.MkdirAll(filepath.Dir(dst), 0755)
	if err := writeIfChanged(dst, []byte(code)); err != nil {
		die("%v", err)
	}
	replace[filepath.Join(repo, "backend", "remote", "zz_verif_chans.go")] = dst
}

// patchWaitAction puts a hook in front of the one blocking wait of the replica's registration loop
// (sync.Task.AddReplica: wait for the controller's action or for the 5 s retry ticker) so that engine E-F can run that
// loop, on several replicas of one process, under step control: with the hook unset the original select runs.  The
// statement is matched as text; if it is not found exactly once nothing is patched and the generated constant
// sync.VerifWaitActionHooked is false (the bootstrap scenario of C09 then reports that it could not run - it never
// turns a change of that statement into an alarm).
func patchWaitAction(repo, out string, replace map[string]string) {
	target := filepath.Join(repo, "sync", "sync.go")
	srcPath := target
	if r, ok := replace[target]; ok {
		srcPath = r
	}
	old := "\t\tselect {\n\t\tcase <-ticker.C:\n\t\t\tlogrus.Info(\"Timed out waiting for response from controller, will retry\")\n\t\t\tgoto Register\n\t\tcase action = <-replica.ActionChannel:\n\t\t}\n"
	neu := "\t\tif va, vtick, vhandled := inject.WaitAction(replicaAddress); vhandled {\n\t\t\tif vtick {\n\t\t\t\tlogrus.Info(\"Timed out waiting for response from controller, will retry\")\n\t\t\t\tgoto Register\n\t\t\t}\n\t\t\taction = va\n\t\t} else {\n\t" + strings.Replace(strings.TrimSuffix(old, "\n"), "\n", "\n\t", -1) + "\n\t\t}\n"
	hooked := false
	if src, err := os.ReadFile(srcPath); err == nil && strings.Count(string(src), old) == 1 && strings.Contains(string(src), "github.com/openebs/jiva/error-inject") {
		dst := filepath.Join(out, "sync", "sync.go")
		os.MkdirAll(filepath.Dir(dst), 0755)
		if err := writeIfChanged(dst, []byte(strings.Replace(string(src), old, neu, 1))); err != nil {
			die("%v", err)
		}
		replace[target] = dst
		hooked = true
	} else {
		fmt.Fprintf(os.Stderr, "gen: wait-action hook not applied (statement not found exactly once in sync/sync.go)\n")
	}
	code := fmt.Sprintf("//go:build verif\n\n// Code generated by /verif/tools/gen; DO NOT EDIT.\npackage sync\n\n// VerifWaitActionHooked: the registration loop's wait statement was found and hooked.\nconst VerifWaitActionHooked = %v\n", hooked)
	dst := filepath.Join(out, "sync", "zz_verif_flags.go")
	os.MkdirAll(filepath.Dir(dst), 0755)
	if err := writeIfChanged(dst, []byte(code)); err != nil {
		die("%v", err)
	}
	replace[filepath.Join(repo, "sync", "zz_verif_flags.go")] = dst
}

func writeIfChanged(p string, b []byte) error {
	if old, err := os.ReadFile(p); err == nil && string(old) == string(b) {
		return nil
	}
	return os.WriteFile(p, b, 0644)
}
