#!/usr/bin/env python3
"""mergeparts.py <property-id> <outdir> <part-name>... : fold the evidence parts written by the other engines of a
composite check into evidence/<id>.json (written by the main engine of that check in the same run)."""
import json, os, sys

pid, outdir = sys.argv[1], sys.argv[2]
main_p = os.path.join(outdir, "evidence", pid + ".json")
ev = json.load(open(main_p))
cov = ev["coverage"]
cov.setdefault("parts", {})
cov["parts"]["main"] = {"engine": "see runs", "states": cov.get("states"), "transitions": cov.get("transitions")}
for name in sys.argv[3:]:
    p = os.path.join(outdir, "evidence", name)
    if not os.path.exists(p):
        print("mergeparts: missing part", p, file=sys.stderr)
        sys.exit(2)
    part = json.load(open(p))
    pc = part["coverage"]
    cov["parts"][name] = pc
    n_exec = pc.get("transitions") or pc.get("evaluations") or 0
    n_st = pc.get("states") or pc.get("distinct_nontrivial") or 0
    cov["transitions"] = cov.get("transitions", 0) + n_exec
    cov["traces_validated_against_impl"] = cov.get("traces_validated_against_impl", 0) + (pc.get("traces_validated_against_impl") or n_exec)
    cov["states"] = cov.get("states", 0) + n_st
    cov["evaluations"] = cov.get("evaluations", 0) + n_exec
    cov["distinct_nontrivial"] = cov.get("distinct_nontrivial", 0) + n_st
    if pc.get("exhaustive") is False:
        cov["exhaustive"] = False
    ev["wall_s"] = ev.get("wall_s", 0) + part.get("wall_s", 0)
    ev["violations"] = ev.get("violations", 0) + part.get("violations", 0)
    ev.setdefault("assumptions", [])
    for a in part.get("assumptions", []):
        if a not in ev["assumptions"]:
            ev["assumptions"].append("[" + name + "] " + a)
json.dump(ev, open(main_p, "w"), indent=1)
