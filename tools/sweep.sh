#!/bin/bash
# sweep.sh <tier> <ids...> : run the registered commands of the given properties one after the other, one summary line each
tier=$1; shift
for id in "$@"; do
  s=$(date +%s)
  VERIF_TIER=$tier bin/check $id > sweep-$tier-$id.log 2>&1
  echo "$id exit=$? wall=$(( $(date +%s)-s ))s $(grep -c ^VIOLATION sweep-$tier-$id.log) violations $(grep -c ^KNOWN-FINDING sweep-$tier-$id.log) known"
done
