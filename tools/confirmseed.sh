#!/bin/bash
# confirmseed.sh <name> <seed-worktree> : independently confirm a seeded change delivered by a sub-agent in <seed-worktree>
# (SEED_PATCH.diff, SEED_DEMO_CMD.txt, demo files): in a FRESH scratch worktree of /repo the demo must pass without the
# patch and fail with it, the project must build and the baseline tests must pass with it. On success the artefacts are
# copied to /verif/seeded/<name>/ (patch.diff, demo/, notes). The scratch worktree is removed.
export GOFLAGS=-mod=mod GOPROXY=off GOSUMDB=off GOTOOLCHAIN=local
name=$1; src=$2
wt=/tmp/wt-confirm-$name
git -C /repo worktree remove --force $wt >/dev/null 2>&1
git -C /repo worktree add -q --detach $wt HEAD || exit 2
# demo files = everything untracked in the seed worktree except the SEED_* files
(cd $src && git ls-files --others --exclude-standard | grep -v '^SEED_' | grep -v '\.orig$\|\.rej$') > /tmp/confirm-$name.files
(cd $src && tar cf - -T /tmp/confirm-$name.files) | (cd $wt && tar xf -)
cmd=$(grep -v '^#' $src/SEED_DEMO_CMD.txt | grep -v '^export' | grep -v '^$' | grep -v '^cd ' | head -1)
cd $wt
echo "== demo command: $cmd"
echo "== without the change"; (timeout 600 bash -o pipefail -c "$cmd") > /tmp/confirm-$name.without.log 2>&1; r0=$?; tail -3 /tmp/confirm-$name.without.log
git apply $src/SEED_PATCH.diff || { echo "PATCH DOES NOT APPLY"; cd /; git -C /repo worktree remove --force $wt; exit 1; }
echo "== build"; go build ./... ; rb=$?
echo "== baseline"; go test -vet=off -count=1 ./util/... 2>&1 | tail -1; rt=${PIPESTATUS[0]}
echo "== with the change"; (timeout 600 bash -o pipefail -c "$cmd") > /tmp/confirm-$name.with.log 2>&1; r1=$?; tail -3 /tmp/confirm-$name.with.log
cd /
echo "RESULT name=$name demo_without=$r0 demo_with=$r1 build=$rb baseline=$rt"
if [ $r0 -eq 0 ] && [ $r1 -ne 0 ] && [ $rb -eq 0 ] && [ $rt -eq 0 ]; then
  d=/verif/seeded/$name; rm -rf $d; mkdir -p $d/demo
  cp $src/SEED_PATCH.diff $d/patch.diff
  cp $src/SEED_NOTES.md $d/notes.md 2>/dev/null
  cp $src/SEED_DEMO_CMD.txt $d/demo/DEMO_CMD.txt
  (cd $src && tar cf - -T /tmp/confirm-$name.files) | (cd $d/demo && tar xf -)
  # Go would try to compile the demo as part of nothing: keep it inert
  find $d/demo -name '*.go' -exec mv {} {}.txt \;
  echo "CONFIRMED -> $d"
else
  echo "NOT CONFIRMED"
fi
git -C /repo worktree remove --force $wt
